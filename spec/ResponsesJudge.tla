--------------------------- MODULE ResponsesJudge ---------------------------
(* Code -> spec: the failure kinds the real conformance checks reported for (definition, response) pairs are judged   *)
(* against Responses!Expected, recomputed here from the recorded definition / response (not from the exporter's copy). *)
EXTENDS Responses, IOUtils
Obs == JsonDeserialize(IOEnv.OBS_FILE)   \* [defs : Seq([d : defn, defs : reference table]), obs : Seq([d : index, resp, kinds : Seq(STRING)])]
VARIABLE i
JInit == /\ i \in 1..Len(Obs.obs)
         /\ defn = Obs.defs[Obs.obs[i].d].d /\ resp = Obs.obs[i].resp
         /\ exp = Expected(defn, Obs.defs[Obs.obs[i].d].defs, resp)
JNext == UNCHANGED <<i, defn, resp, exp>>
JSpec == JInit /\ [][JNext]_<<i, defn, resp, exp>>
Report == LET o == Obs.obs[i].kinds IN
          /\ \A k \in Miss(exp, o) : PrintT(<<"DISAGREE", i, k, "miss">>)
          /\ \A k \in FalseAlarm(exp, o) : PrintT(<<"DISAGREE", i, k, "false-alarm">>)
          /\ \A j \in Foreign(o) : PrintT(<<"DISAGREE", i, o[j], "crash">>)
=============================================================================
