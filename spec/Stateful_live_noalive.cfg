SPECIFICATION FairSpec
CONSTANTS
  StepCount = 2
  MaxScen = 2
  MaxSuites = 2
  MaxFail = 0
  FixDrain = TRUE
  FixCtrlC = TRUE
  FixDrainExec = TRUE
  FixSetup = TRUE
  FixWorst = TRUE
  AllowStop = FALSE
  AllowCtrlC = FALSE
  AllowError = FALSE
  AliveCheck = FALSE
  NKinds = 1
INVARIANT ProtocolOK
PROPERTY Termination
CHECK_DEADLOCK FALSE
