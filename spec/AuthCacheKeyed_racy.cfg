SPECIFICATION Spec
CONSTANTS
 Threads = {1, 2, 3}
 Keys = {1, 2}
 R = 2
 MaxTime = 3
 MaxCalls = 4
 MaxLocks = 4
 AtomicCreate = FALSE
INVARIANT FetchOnce
CHECK_DEADLOCK FALSE
