----------------------------- MODULE UnitTrace -----------------------------
(***************************************************************************)
(* Action-level trace validation of the plan loop and the unit phases      *)
(* (examples, coverage, fuzzing) for FREE-RUNNING executions: W worker     *)
(* threads and the consumer run as the operating system schedules them,    *)
(* the recorder's global order (queue puts logged under the queue's own    *)
(* mutex) is the trace, and every line must be explained by an action of   *)
(* Engine.tla; what a thread does between two of its log points is a       *)
(* silent action that TLC infers.  (EngineTrace.tla validates the same     *)
(* model on FORCED schedules, where every step is pinned by a token.)      *)
(* Lines (all fields always present):                                      *)
(*   Q w k op st   worker w put event k for operation op on the queue      *)
(*   CASE w op     worker w entered the test function for one case         *)
(*   SEND w op     worker w is about to send a request                     *)
(*   WEXIT w       worker w's thread target returned                       *)
(*   COUNT f lim   ExecutionControl.count_failure returned                 *)
(*   FAULT site w  the harness injected an exception at a hook point       *)
(*   STOP / CTRLC  the environment: stream.stop() / Ctrl-C in get()        *)
(*   Y k ph op st  event delivered to the stream consumer                  *)
(* As in StatefulTrace.tla the moment a stop flag becomes visible is left  *)
(* to inference (Env_Stop silent but required before STOP; the Ctrl-C      *)
(* handler silent after CTRLC, its Interrupted event being the next Y INT).*)
(***************************************************************************)
EXTENDS Engine, Json, IOUtils
Runs == JsonDeserialize(IOEnv.OBS_FILE)   \* sequence of [stop, unique, fault |-> BOOLEAN, lines |-> sequence of lines]
VARIABLES t, l, pendCtrlC, owedInt, caseSeen
aux == <<t, l, pendCtrlC, owedInt, caseSeen>>
tvars == <<vars, aux>>
Lines == Runs[t].lines
Line == Lines[l]
More == l <= Len(Lines)
Consume == l' = l + 1 /\ t' = t
Is(e) == More /\ Line.e = e
IsQ(k) == More /\ Line.e = "Q" /\ Line.k = k
IsY(k) == More /\ Line.e = "Y" /\ Line.k = k
AuxSame == UNCHANGED <<pendCtrlC, owedInt, caseSeen>>

TInit == Init /\ t \in 1..Len(Runs) /\ l = 1 /\ pendCtrlC = FALSE /\ owedInt = FALSE /\ caseSeen = [w \in Workers |-> FALSE]

Silent ==
  \/ /\ UNCHANGED aux
     /\ \/ \E w \in Workers :
             \/ (W_Loop(w) /\ wpc'[w] = "take")                     \* passed the stop check of the worker loop
             \/ (W_Take(w) /\ wpc'[w] = "create")                   \* took the next operation
             \/ (W_Create(w) /\ faulted' = faulted)                   \* built the test
             \/ (W_Done(w) /\ ~caseSeen[w])                            \* Hypothesis is done with the operation
             \/ ((Runs[t].unique \/ Runs[t].fault) /\ W_Send(w))      \* outcome from the cache / exception before the send point
        \/ C_Get \/ C_Timeout \/ C_Alive \/ C_Join
        \/ (Runs[t].stop /\ Env_Stop)
  \/ \E w \in Workers :      \* the stop check of the test function, made right after its CASE log point
        /\ caseSeen[w] /\ W_CaseCheck(w)
        /\ caseSeen' = [caseSeen EXCEPT ![w] = FALSE] /\ UNCHANGED <<t, l, pendCtrlC, owedInt>>
CtrlCTakesEffect ==
  /\ pendCtrlC /\ C_CtrlCGet
  /\ pendCtrlC' = FALSE /\ owedInt' = TRUE /\ UNCHANGED <<t, l, caseSeen>>

ScOf(op) == pi * 100 + op
Logged ==
  /\ Consume
  /\ \/ IsY("ES") /\ P_Start /\ AuxSame
     \/ IsY("PS") /\ P_PhaseStarted /\ pi = Line.ph /\ AuxSame
     \/ IsY("PF") /\ pi = Line.ph /\ ((P_Skip /\ Line.st = "skip") \/ (U_PhaseFinish /\ Line.st = pstatus)) /\ AuxSame
     \/ IsY("EF") /\ P_Finish /\ AuxSame
     \/ IsY("SS") /\ U_SuiteStart /\ AuxSame
     \/ IsY("SF") /\ U_SuiteFinish /\ Line.st = pstatus /\ AuxSame
     \/ (\E k \in {"ScS", "ScF", "NFE"} : IsY(k) /\ C_Yield /\ cur.k = k /\ cur.sc = ScOf(Line.op) /\ (k = "ScF" => cur.st = Line.st)) /\ AuxSame
     \/ IsY("INT") /\ \/ (owedInt /\ owedInt' = FALSE /\ UNCHANGED vars /\ UNCHANGED <<pendCtrlC, caseSeen>>)
                      \/ (~owedInt /\ ((C_Yield /\ cur.k = "INT") \/ C_CtrlC) /\ AuxSame)
     \/ Is("COUNT") /\ (MaxFail = 0 \/ (Line.fails = fails /\ Line.limit = limit)) /\ UNCHANGED vars /\ AuxSame
     \/ Is("STOP") /\ stopped /\ UNCHANGED vars /\ AuxSame
     \/ Is("CTRLC") /\ ppc \in {"get", "alive"} /\ pendCtrlC' = TRUE /\ UNCHANGED vars /\ UNCHANGED <<owedInt, caseSeen>>
     \/ (\E w \in Workers : Is("CASE") /\ Line.w = w /\ wpc[w] = "check" /\ wop[w] = Line.op /\ ~caseSeen[w]
                               /\ caseSeen' = [caseSeen EXCEPT ![w] = TRUE] /\ UNCHANGED vars /\ UNCHANGED <<pendCtrlC, owedInt>>)
     \/ (\E w \in Workers : More /\ Line.w = w /\
          \/ IsQ("ScS") /\ (W_Started(w) \/ W_Err1(w)) /\ wop[w] = Line.op
          \/ IsQ("NFE") /\ (W_Err2(w) \/ W_PutNFE(w)) /\ wop[w] = Line.op
          \/ IsQ("ScF") /\ W_Finish(w) /\ wop[w] = Line.op /\ wout[w] = Line.st
          \/ IsQ("INT") /\ W_Intr(w)
          \/ Is("SEND") /\ W_Send(w) /\ wop[w] = Line.op
          \/ Is("WEXIT") /\ (W_Loop(w) \/ W_Take(w)) /\ wpc'[w] = "dead"
          \/ Is("FAULT") /\ Line.site = "builder.create_test" /\ W_Create(w) /\ faulted' /\ ~faulted) /\ AuxSame
     \/ Is("FAULT") /\ Line.site # "builder.create_test" /\ UNCHANGED vars /\ AuxSame     \* its effect is the error outcome of a W_Send

TNext == Silent \/ CtrlCTakesEffect \/ Logged
TSpec == TInit /\ [][TNext]_tvars

Accepted == l = Len(Lines) + 1 /\ Done
TraceInvariants == ProtocolOK /\ ClosedAtEnd
Report == /\ IF Accepted THEN PrintT(<<"ACCEPT", t>>) ELSE TRUE
          /\ IF TraceInvariants THEN TRUE ELSE PrintT(<<"INVARIANT", t, l - 1>>)
          /\ IF ~Accepted /\ ~ENABLED TNext THEN PrintT(<<"STUCK", t, l>>) ELSE TRUE
=============================================================================
