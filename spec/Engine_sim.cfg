SPECIFICATION Spec
CONSTANTS
  W = 2
  NOps = 2
  K = 1
  MaxFail = 0
  NPhases = 1
  FixDrain = TRUE
  FixWorkerErr = TRUE
  AllowStop = TRUE
  AllowFault = TRUE
  AliveCheck = TRUE
CHECK_DEADLOCK FALSE
