SPECIFICATION JSpec
INVARIANT Report
CHECK_DEADLOCK FALSE
