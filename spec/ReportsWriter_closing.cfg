SPECIFICATION WSpec
CONSTANT N = 3
CONSTANT MaxWrites = 2
CONSTANT HandlerCloses = TRUE
INVARIANT WriterNeverDies
INVARIANT NoDuplicateNoReorder
INVARIANT CompleteWhenFinished
INVARIANT CompleteAtExit
CHECK_DEADLOCK FALSE
