SPECIFICATION YSpec
CONSTANT MaxLen = 3
INVARIANT DqRoundTrip
INVARIANT SqRoundTrip
INVARIANT SqRejectsRaw
INVARIANT Export
CHECK_DEADLOCK FALSE
