----------------------------- MODULE AuthCache -----------------------------
(***************************************************************************)
(* C14 (second sentence): an auth provider's token is fetched at most once *)
(* per refresh interval and cache key, also under concurrent workers.      *)
(*                                                                         *)
(* Model of CachingAuthProvider.get / KeyedCachingAuthProvider.get         *)
(* (auths.py): unlocked cache read, lock acquisition, in-lock re-read,     *)
(* provider fetch, cache write (expiry = time of the write + R), lock      *)
(* release; time advances by an independent Tick action.  One action per   *)
(* step between two hook points (auth.read, auth.before_lock, auth.locked, *)
(* provider call, auth.fetched, auth.written).                             *)
(* Recheck = FALSE switches the in-lock re-read off: the design without    *)
(* double-checked locking, which TLC must refute (vacuity guard and source *)
(* of attack schedules).  WriteInLock = FALSE releases the lock right      *)
(* after the provider call, i.e. the cache entry is written outside the    *)
(* critical section - the second plausible regression of this code, also   *)
(* refuted by TLC and also turned into an attack schedule.                 *)
(* FetchFail is the provider raising (network error while fetching the     *)
(* token): the `with` statement releases the lock, nothing is cached, the  *)
(* caller gets the exception and the next call fetches again.  With        *)
(* ReleaseOnError = FALSE the lock is leaked on that path (acquire/release *)
(* written by hand without try/finally) - the third refuted design: TLC    *)
(* finds the state in which every thread is idle and the lock is held, and *)
(* the forced replay of that behaviour hangs defective code.               *)
(***************************************************************************)
EXTENDS Naturals, Sequences, FiniteSets, TLC
CONSTANTS Threads, Keys, R, MaxTime, MaxCalls, Recheck, WriteInLock, MaxFails, ReleaseOnError
None == [data |-> 0, expires |-> 0, set |-> FALSE]
VARIABLES cache, lock, pc, key, now, fetches, calls, returned, fails
vars == <<cache, lock, pc, key, now, fetches, calls, returned, fails>>
Valid(e) == e.set /\ now < e.expires
Init == /\ cache = [k \in Keys |-> None] /\ lock = 0 /\ pc = [t \in Threads |-> "idle"] /\ key = [t \in Threads |-> 0]
        /\ now = 0 /\ fetches = <<>> /\ calls = 0 /\ returned = <<>> /\ fails = 0
Ret(t, d) == returned' = Append(returned, [t |-> t, k |-> key[t], data |-> d, at |-> now])
Call(t, k) == /\ pc[t] = "idle" /\ calls < MaxCalls /\ key' = [key EXCEPT ![t] = k] /\ pc' = [pc EXCEPT ![t] = "read"]
              /\ calls' = calls + 1 /\ UNCHANGED <<cache, lock, now, fetches, returned, fails>>
Read(t) == /\ pc[t] = "read"
           /\ IF Valid(cache[key[t]]) THEN pc' = [pc EXCEPT ![t] = "idle"] /\ Ret(t, cache[key[t]].data)
              ELSE pc' = [pc EXCEPT ![t] = "acquire"] /\ UNCHANGED returned
           /\ UNCHANGED <<cache, lock, key, now, fetches, calls, fails>>
Acquire(t) == /\ pc[t] = "acquire" /\ lock = 0 /\ lock' = t /\ pc' = [pc EXCEPT ![t] = IF Recheck THEN "reread" ELSE "fetch"]
              /\ UNCHANGED <<cache, key, now, fetches, calls, returned, fails>>
ReRead(t) == /\ pc[t] = "reread"
             /\ IF Valid(cache[key[t]]) THEN pc' = [pc EXCEPT ![t] = "idle"] /\ lock' = 0 /\ Ret(t, cache[key[t]].data)
                ELSE pc' = [pc EXCEPT ![t] = "fetch"] /\ UNCHANGED <<lock, returned, fails>>
             /\ UNCHANGED <<cache, key, now, fetches, calls, fails>>
Fetch(t) == /\ pc[t] = "fetch" /\ fetches' = Append(fetches, [k |-> key[t], at |-> now]) /\ pc' = [pc EXCEPT ![t] = "write"]
            /\ lock' = IF WriteInLock THEN lock ELSE 0
            /\ UNCHANGED <<cache, key, now, calls, returned, fails>>
Write(t) == /\ pc[t] = "write" /\ cache' = [cache EXCEPT ![key[t]] = [data |-> Len(fetches), expires |-> now + R, set |-> TRUE]]
            /\ lock' = (IF WriteInLock THEN 0 ELSE lock) /\ pc' = [pc EXCEPT ![t] = "idle"] /\ Ret(t, Len(fetches))
            /\ UNCHANGED <<key, now, fetches, calls, fails>>
FetchFail(t) == /\ pc[t] = "fetch" /\ fails < MaxFails /\ fails' = fails + 1 /\ pc' = [pc EXCEPT ![t] = "idle"]
                /\ lock' = IF ReleaseOnError /\ lock = t THEN 0 ELSE lock
                /\ UNCHANGED <<cache, key, now, fetches, calls, returned>>
Tick == /\ now < MaxTime /\ now' = now + 1 /\ UNCHANGED <<cache, lock, pc, key, fetches, calls, returned, fails>>
Next == Tick \/ \E t \in Threads : Read(t) \/ Acquire(t) \/ ReRead(t) \/ Fetch(t) \/ FetchFail(t) \/ Write(t) \/ \E k \in Keys : Call(t, k)
Spec == Init /\ [][Next]_vars
(* two fetches of the same key are at least one refresh interval apart *)
FetchOnceOf(f) == \A i, j \in 1..Len(f) : (i < j /\ f[i].k = f[j].k) => f[j].at >= f[i].at + R
FetchOnce == FetchOnceOf(fetches)
(* what a caller gets is the token of the most recent fetch of its key *)
LatestFetch(f, k) == IF \E i \in 1..Len(f) : f[i].k = k THEN CHOOSE i \in 1..Len(f) : f[i].k = k /\ \A j \in 1..Len(f) : f[j].k = k => j <= i ELSE 0
ReturnsFresh == \A i \in 1..Len(returned) : returned[i].data # 0 /\ fetches[returned[i].data].k = returned[i].k
MutualExclusion == WriteInLock => Cardinality({t \in Threads : pc[t] \in {"reread", "fetch", "write"}}) <= 1
LockOwner == lock # 0 => (pc[lock] \in {"reread", "fetch", "write"} \/ ~ReleaseOnError)
(* the lock does not outlive the calls: a failed fetch must not leave it held *)
NoLeak == (\A t \in Threads : pc[t] = "idle") => lock = 0
(* a failed fetch caches nothing: every cached token is the result of a logged successful fetch of that key *)
CacheFromFetch == \A k \in Keys : cache[k].set => (cache[k].data \in 1..Len(fetches) /\ fetches[cache[k].data].k = k)
=============================================================================
