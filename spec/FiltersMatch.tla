---------------------------- MODULE FiltersMatch ----------------------------
(***************************************************************************)
(* Shared oracle of C07 (operation selection) and C19 (hook / auth         *)
(* filters): when does a filter term match an API operation, and when is   *)
(* an operation selected by a set of include / exclude filters.            *)
(*                                                                         *)
(* Written from the property text and the user documentation               *)
(* ("all conditions within a term are combined with AND, terms with OR",   *)
(* "method: the upper-cased HTTP method", "name: METHOD PATH"), never from *)
(* filters.py.                                                             *)
(*                                                                         *)
(* Text = tuple of one-character strings, so that regular expressions of   *)
(* the catalogue (^lit, lit$, lit, ^lit$ with `search` semantics) can be   *)
(* decided by the spec itself.                                             *)
(*                                                                         *)
(* Operation = [method : Text (as written in the document), path : Text,   *)
(*              tags : Seq(Text) (<<>> = no tags), opid : Text (<<>> = no  *)
(*              operationId), depr : "true" | "false" | "absent"]          *)
(* Atom      = [by, how, v : Text, vs : Seq(Text)]                         *)
(*    by  \in {"path","method","name","tag","operation_id","deprecated",   *)
(*             "expr"}                                                     *)
(*    how \in {"value","list","prefix","suffix","infix","exact"} for the   *)
(*             attribute atoms, "is" for deprecated, and for expressions   *)
(*             "eq_str","eq_raw","ne_str","eq_true","ne_true", vs = <<ptr>> *)
(* Filter    = set of atoms (conjunction);  FilterSet = [incl, excl]       *)
(***************************************************************************)
EXTENDS Integers, Sequences, FiniteSets

UpperChar(c) ==
  CASE c = "a" -> "A" [] c = "b" -> "B" [] c = "c" -> "C" [] c = "d" -> "D" [] c = "e" -> "E"
    [] c = "f" -> "F" [] c = "g" -> "G" [] c = "h" -> "H" [] c = "i" -> "I" [] c = "j" -> "J"
    [] c = "k" -> "K" [] c = "l" -> "L" [] c = "m" -> "M" [] c = "n" -> "N" [] c = "o" -> "O"
    [] c = "p" -> "P" [] c = "q" -> "Q" [] c = "r" -> "R" [] c = "s" -> "S" [] c = "t" -> "T"
    [] c = "u" -> "U" [] c = "v" -> "V" [] c = "w" -> "W" [] c = "x" -> "X" [] c = "y" -> "Y"
    [] c = "z" -> "Z" [] OTHER -> c
Upper(t) == [i \in 1..Len(t) |-> UpperChar(t[i])]

IsPrefix(p, s) == Len(p) <= Len(s) /\ \A i \in 1..Len(p) : s[i] = p[i]
IsSuffix(p, s) == Len(p) <= Len(s) /\ \A i \in 1..Len(p) : s[Len(s) - Len(p) + i] = p[i]
IsInfix(p, s)  == \E k \in 0..(Len(s) - Len(p)) : \A i \in 1..Len(p) : s[k + i] = p[i]

(* the operation's name as shown to the user: for Open API upper-cased method, a blank, the path template; an operation     *)
(* record may carry its name explicitly (`label`, e.g. GraphQL "Query.getBooks")                                                *)
OpName(op) == IF "label" \in DOMAIN op THEN op.label ELSE Upper(op.method) \o <<" ">> \o op.path

(* the values an attribute condition is compared with (a set: an operation may carry several tags or none) *)
Values(op, by) ==
  CASE by = "path"         -> {op.path}
    [] by = "method"       -> {Upper(op.method)}
    [] by = "name"         -> {OpName(op)}
    [] by = "tag"          -> {op.tags[i] : i \in 1..Len(op.tags)}
    [] by = "operation_id" -> IF op.opid = <<>> THEN {} ELSE {op.opid}
    [] OTHER               -> {}
(* HTTP methods are compared case-insensitively (the filter value may be written in any case) *)
Norm(by, t) == IF by = "method" THEN Upper(t) ELSE t

(* /parameters/<k>/name: the name of the operation's own k-th parameter AS THE DOCUMENT MEANS IT.  An operation record may    *)
(* carry `params`, a sequence of [name : Text, via : "inline" | "ref"]; whether a parameter object is written in place or as *)
(* a $ref to a reusable one (`via`) is not observable by a filter: expressions are evaluated on the resolved definition      *)
P_params == <<"/","p","a","r","a","m","e","t","e","r","s","/">>
P_name   == <<"/","n","a","m","e">>
ParamPtr(k) == P_params \o <<k>> \o P_name
ParamName(op, n) == IF "params" \in DOMAIN op /\ Len(op.params) >= n THEN <<"str", op.params[n].name>> ELSE <<"absent", <<>> >>

(* value of the operation definition at a JSON pointer of the catalogue: <<kind, text>>, kind "absent" when it does not resolve *)
Pointer(op, ptr) ==
  CASE ptr = ParamPtr("0") -> ParamName(op, 1)
    [] ptr = ParamPtr("1") -> ParamName(op, 2)
    [] ptr = <<"/","o","p","e","r","a","t","i","o","n","I","d">> ->
           IF op.opid = <<>> THEN <<"absent", <<>> >> ELSE <<"str", op.opid>>
    [] ptr = <<"/","t","a","g","s","/","0">> ->
           IF op.tags = <<>> THEN <<"absent", <<>> >> ELSE <<"str", op.tags[1]>>
    [] ptr = <<"/","d","e","p","r","e","c","a","t","e","d">> ->
           IF op.depr = "absent" THEN <<"absent", <<>> >> ELSE <<"bool", <<op.depr>> >>
    [] OTHER -> <<"absent", <<>> >>

(* three-valued: "T", "F", "U" (U: the property text does not decide, e.g. `!=` on a pointer that does not resolve) *)
AtomVerdict(a, op) ==
  LET vals == Values(op, a.by) IN
  CASE a.how \in {"value", "func"} -> IF \E x \in vals : x = Norm(a.by, a.v) THEN "T" ELSE "F"   \* func: a user function deciding the same
    [] a.how = "list"   -> IF \E x \in vals : \E i \in 1..Len(a.vs) : x = Norm(a.by, a.vs[i]) THEN "T" ELSE "F"
    [] a.how = "prefix" -> IF \E x \in vals : IsPrefix(a.v, x) THEN "T" ELSE "F"
    [] a.how = "suffix" -> IF \E x \in vals : IsSuffix(a.v, x) THEN "T" ELSE "F"
    [] a.how = "infix"  -> IF \E x \in vals : IsInfix(a.v, x) THEN "T" ELSE "F"
    [] a.how = "exact"  -> IF \E x \in vals : x = a.v THEN "T" ELSE "F"
    [] a.how = "is"     -> IF op.depr = "true" THEN "T" ELSE "F"          \* by = "deprecated"
    [] a.how \in {"eq_str", "eq_raw"} -> IF Pointer(op, a.vs[1]) = <<"str", a.v>> THEN "T" ELSE "F"   \* eq_raw: value written without quotes
    [] a.how = "ne_str" -> IF Pointer(op, a.vs[1])[1] = "absent" THEN "U"
                           ELSE IF Pointer(op, a.vs[1]) = <<"str", a.v>> THEN "F" ELSE "T"
    [] a.how = "eq_true" -> IF Pointer(op, a.vs[1]) = <<"bool", <<"true">> >> THEN "T" ELSE "F"
    [] a.how = "ne_true" -> IF Pointer(op, a.vs[1])[1] = "absent" THEN "U"
                            ELSE IF Pointer(op, a.vs[1]) = <<"bool", <<"true">> >> THEN "F" ELSE "T"
    [] OTHER -> "U"

And3(S) == IF "F" \in S THEN "F" ELSE IF "U" \in S THEN "U" ELSE "T"      \* conjunction over a set of verdicts
Or3(S)  == IF "T" \in S THEN "T" ELSE IF "U" \in S THEN "U" ELSE "F"      \* disjunction (of the empty set: "F")
Not3(v) == IF v = "T" THEN "F" ELSE IF v = "F" THEN "T" ELSE "U"

FilterVerdict(f, op) == And3({AtomVerdict(a, op) : a \in f})
(* selected  <=>  (no include filter \/ some include filter matches) /\ no exclude filter matches *)
SelectedVerdict(op, fs) ==
  And3({ IF fs.incl = {} THEN "T" ELSE Or3({FilterVerdict(f, op) : f \in fs.incl}),
         Not3(Or3({FilterVerdict(f, op) : f \in fs.excl})) })
Selected(op, fs) == SelectedVerdict(op, fs) = "T"

EmptyFilterSet == [incl |-> {}, excl |-> {}]
=============================================================================
