SPECIFICATION FairSpec
CONSTANTS
  W = 2
  NOps = 2
  K = 1
  MaxFail = 0
  NPhases = 1
  FixDrain = TRUE
  FixWorkerErr = FALSE
  AllowStop = FALSE
  AllowFault = TRUE
  AliveCheck = TRUE
INVARIANT ProtocolOK
PROPERTY Termination
CHECK_DEADLOCK FALSE
