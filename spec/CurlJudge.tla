----------------------------- MODULE CurlJudge -----------------------------
(* Code -> spec: every printed command (code points) is judged against the request that was really sent, and, where the *)
(* command was also executed by /bin/sh + curl, what the loopback server then received is compared with what the model  *)
(* predicts (validation of the sh / curl model itself) and with the original request.                                    *)
EXTENDS Curl, IOUtils
Obs == JsonDeserialize(IOEnv.OBS_FILE)      \* sequence of [cmd, orig, redact, hasExec, nexec, exec]; a request = [method, target, headers [n, v], body]
(* two-level fan-out (block, then observation) so that TLC's workers judge in parallel *)
VARIABLES i, blk
NB == 64
JInit == i = 0 /\ blk = 0 /\ el = [slot |-> "body", s |-> <<>>, m |-> "-"]
JNext == \/ /\ blk = 0 /\ blk' \in 1..NB /\ i' = 0 /\ UNCHANGED el
         \/ /\ blk > 0 /\ i = 0 /\ i' \in {j \in 1..Len(Obs) : (j % NB) + 1 = blk} /\ UNCHANGED <<blk, el>>
JSpec == JInit /\ [][JNext]_<<i, blk, el>>
o == Obs[i]

SameV == CmdVerdict(o.cmd, o.orig, o.mode)     \* mode: "exact" | "redact" (sanitisation on) | "lax" (original delivered by another client)
Tk == Tokens(o.cmd)
Rq == Interp(Tk.words)
Definite == Tk.ok /\ ~Tk.op /\ ~Tk.glob /\ Rq.ok /\ ~Rq.unknown
(* the model's prediction of what the server receives from curl, all headers included *)
ModelV == IF ~o.hasExec THEN "-"
          ELSE IF ~Definite THEN "U"
          ELSE IF /\ o.nexec = 1 /\ o.exec.method = Rq.method /\ o.exec.target = Rq.target /\ o.exec.body = Rq.body
                  /\ BagEq(Norm(o.exec.headers), Norm(Rq.wire)) THEN "T" ELSE "F"
(* what curl really sent against what was originally sent *)
ExecV == IF ~o.hasExec THEN "-" ELSE IF o.nexec = 1 /\ SameReq(o.exec, o.orig) THEN "T" ELSE "F"
Report == IF i = 0 THEN TRUE
          ELSE PrintT(<<"V", ToJson([i |-> i, same |-> SameV.v, why |-> SameV.why, model |-> ModelV, exec |-> ExecV])>>)
=============================================================================
