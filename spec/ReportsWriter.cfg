SPECIFICATION WSpec
CONSTANT N = 3
CONSTANT MaxWrites = 2
CONSTANT HandlerCloses = FALSE
INVARIANT WriterNeverDies
INVARIANT NoDuplicateNoReorder
INVARIANT CompleteWhenFinished
INVARIANT CompleteAtExit
PROPERTY EventuallyExits
CHECK_DEADLOCK FALSE
