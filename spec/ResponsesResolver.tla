-------------------------- MODULE ResponsesResolver --------------------------
(***************************************************************************)
(* C04, concurrency of response validation.  Validating a response whose   *)
(* definition is a reference into another file is: push the scope of that  *)
(* file on the reference resolver, resolve the (relative) references met   *)
(* while validating - against the TOP of the scope stack -, pop the scope.  *)
(* Thread t validates a response documented in file File[t]; every file    *)
(* has its own `#/definitions/Item`.                                        *)
(*                                                                         *)
(* Shared = TRUE : one resolver (one scope stack) for all threads;          *)
(* Shared = FALSE: a resolver per validation call.                          *)
(* ResolvesOwnFile: a relative reference is resolved in the file it is      *)
(* written in.  TLC refutes it for the shared design (the counterexample is *)
(* the interleaving the harness then forces on the real code) and proves it *)
(* for the per-call design.                                                 *)
(***************************************************************************)
EXTENDS Integers, Sequences, FiniteSets, TLC

CONSTANTS Threads, Shared
File(t) == t                                  \* thread t validates against file number t

VARIABLES stack,       \* Shared: stack[0] is THE scope stack; else stack[t] is the stack of t's own resolver
          pc, resolved
vars == <<stack, pc, resolved>>
Of(t) == IF Shared THEN 0 ELSE t

Init == /\ stack = [i \in {0} \cup Threads |-> <<>>]
        /\ pc = [t \in Threads |-> "idle"]
        /\ resolved = [t \in Threads |-> 0]
Push(t) == /\ pc[t] = "idle"
           /\ stack' = [stack EXCEPT ![Of(t)] = Append(@, File(t))]
           /\ pc' = [pc EXCEPT ![t] = "validating"] /\ UNCHANGED resolved
Resolve(t) == /\ pc[t] = "validating" /\ stack[Of(t)] # <<>>
              /\ resolved' = [resolved EXCEPT ![t] = stack[Of(t)][Len(stack[Of(t)])]]      \* relative to the top of the stack
              /\ pc' = [pc EXCEPT ![t] = "resolved"] /\ UNCHANGED stack
Pop(t) == /\ pc[t] = "resolved" /\ stack[Of(t)] # <<>>
          /\ stack' = [stack EXCEPT ![Of(t)] = SubSeq(@, 1, Len(@) - 1)]
          /\ pc' = [pc EXCEPT ![t] = "done"] /\ UNCHANGED resolved
Next == \E t \in Threads : Push(t) \/ Resolve(t) \/ Pop(t)
Spec == Init /\ [][Next]_vars

ResolvesOwnFile == \A t \in Threads : pc[t] \in {"resolved", "done"} => resolved[t] = File(t)
=============================================================================
