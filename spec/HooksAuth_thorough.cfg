SPECIFICATION ASpec
CONSTANT MaxAuth = 2
CONSTANT MaxLen = 2
CONSTANT Rich = TRUE
INVARIANT ATypeOK
INVARIANT AStateAgrees
INVARIANT AUnfilteredEverywhere
INVARIANT ANoneMeansNoMay
INVARIANT CacheIrrelevant
INVARIANT AExport
CHECK_DEADLOCK FALSE
