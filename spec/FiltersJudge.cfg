SPECIFICATION JSpec
CONSTANT MaxIncl = 2
CONSTANT MaxExcl = 2
CONSTANT MaxTotal = 4
CONSTANT LazyTotal = 3
INVARIANT Report
CHECK_DEADLOCK FALSE
