SPECIFICATION JSpec
CONSTANT MaxIncl = 2
CONSTANT MaxExcl = 2
CONSTANT MaxTotal = 3
CONSTANT LazyTotal = 2
CONSTANT TreeNodes = 4
CONSTANT TreeWide = TRUE
INVARIANT Report
CHECK_DEADLOCK FALSE
