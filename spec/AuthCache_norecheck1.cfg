SPECIFICATION Spec
CONSTANTS
 Threads = {1, 2, 3}
 Keys = {1}
 R = 2
 MaxTime = 3
 MaxCalls = 4
 WriteInLock = TRUE
 MaxFails = 0
 ReleaseOnError = TRUE
 Recheck = FALSE
INVARIANT FetchOnce
INVARIANT ReturnsFresh
INVARIANT MutualExclusion
INVARIANT LockOwner
INVARIANT NoLeak
INVARIANT CacheFromFetch
CHECK_DEADLOCK FALSE
