SPECIFICATION JSpec
CONSTANT GMaxIncl = 2
CONSTANT GMaxExcl = 2
CONSTANT GMaxTotal = 4
INVARIANT Report
CHECK_DEADLOCK FALSE
