SPECIFICATION Spec
CONSTANTS
 Threads = {1, 2, 3}
 Keys = {1, 2}
 R = 2
 MaxTime = 4
 MaxCalls = 6
 WriteInLock = TRUE
 MaxFails = 1
 ReleaseOnError = TRUE
 Recheck = TRUE
CHECK_DEADLOCK FALSE
